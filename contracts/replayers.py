"""Native replayers: turn a recorded bounded case or a solver counter-model into a run of the real code.

Counter-models are replayed for functions whose parameters are primitive (str / bool / int / Optional of these): the model's values are
passed to the REAL function (imported from the tree under test) and the contract is evaluated natively on what it returns. Contracts over
graphs, sets and records are not translated back into inputs here; for those the bounded stand-ins of the property provide the failing
input, or the violation is reported with `no-failing-input-found`."""
from __future__ import annotations

import ast
import importlib
import re
import sys


# ------------------------------------------------------------------ specification expression -> native evaluation
class _Untranslatable(Exception):
    pass


def _eval_spec(reg, expr, env):
    """Evaluate a quantifier-free specification expression natively. env: name -> python value."""
    tree = reg.parse_spec(expr) if isinstance(expr, str) else expr

    def ev(n, env):
        if isinstance(n, ast.Constant):
            return n.value
        if isinstance(n, ast.Name):
            if n.id in env:
                return env[n.id]
            if n.id in ("True", "False", "None"):
                return {"True": True, "False": False, "None": None}[n.id]
            raise _Untranslatable(n.id)
        if isinstance(n, ast.BoolOp):
            vals_ = [ev(v, env) for v in n.values]
            return all(vals_) if isinstance(n.op, ast.And) else any(vals_)
        if isinstance(n, ast.UnaryOp) and isinstance(n.op, ast.Not):
            return not ev(n.operand, env)
        if isinstance(n, ast.UnaryOp) and isinstance(n.op, ast.USub):
            return -ev(n.operand, env)
        if isinstance(n, ast.IfExp):
            return ev(n.body, env) if ev(n.test, env) else ev(n.orelse, env)
        if isinstance(n, ast.BinOp) and isinstance(n.op, (ast.Add, ast.Sub)):
            a, b = ev(n.left, env), ev(n.right, env)
            return a + b if isinstance(n.op, ast.Add) else a - b
        if isinstance(n, ast.Compare):
            left = ev(n.left, env)
            for op, c in zip(n.ops, n.comparators):
                right = ev(c, env)
                ok = {ast.Eq: lambda: left == right, ast.NotEq: lambda: left != right, ast.Lt: lambda: left < right, ast.LtE: lambda: left <= right,
                      ast.Gt: lambda: left > right, ast.GtE: lambda: left >= right, ast.In: lambda: left in right, ast.NotIn: lambda: left not in right,
                      ast.Is: lambda: left is right, ast.IsNot: lambda: left is not right}[type(op)]()
                if not ok:
                    return False
                left = right
            return True
        if isinstance(n, ast.Subscript):
            v = ev(n.value, env)
            if isinstance(n.slice, ast.Slice):
                lo = ev(n.slice.lower, env) if n.slice.lower is not None else None
                hi = ev(n.slice.upper, env) if n.slice.upper is not None else None
                return v[lo:hi]
            return v[ev(n.slice, env)]
        if isinstance(n, ast.Call):
            if isinstance(n.func, ast.Attribute) and n.func.attr in ("startswith", "endswith") and len(n.args) == 1:
                return getattr(ev(n.func.value, env), n.func.attr)(ev(n.args[0], env))
            if isinstance(n.func, ast.Name):
                f = n.func.id
                args = [ev(a, env) for a in n.args] if f not in reg.macros else None
                if f in reg.macros:
                    params, body = reg.macros[f]
                    return ev(reg.parse_spec(body), dict(env, **dict(zip(params, [ev(a, env) for a in n.args]))))
                if f == "is_none":
                    return args[0] is None
                if f == "unwrap":
                    return args[0]
                if f == "implies":
                    return (not args[0]) or args[1]
                if f == "iff":
                    return bool(args[0]) == bool(args[1])
                if f == "len":
                    return len(args[0])
                if f == "nonempty":
                    return bool(args[0])
                if f == "re_escape":
                    return re.escape(args[0])
                if f == "count_sep":
                    return args[0].count(args[1])
            raise _Untranslatable(ast.unparse(n.func))
        raise _Untranslatable(type(n).__name__)
    return ev(tree, env)


_PRIM = {("str",), ("bool",), ("int",), ("opt", ("str",)), ("opt", ("int",)), ("opt", ("bool",)), ("node",)}


def _model_values(model_text, c):
    """Values of the contract's parameters in a z3 model (sexpr)."""
    vals_ = {}
    for m in re.finditer(r'\(define-fun \|?([^\s|]+)\|? \(\) (String|Bool|Int)\s+((?:"(?:[^"]|"")*")|true|false|-?\d+|\(- \d+\))\)', model_text or ""):
        name, sort, v = m.group(1), m.group(2), m.group(3)
        base = name.split("!")[0]
        if sort == "String":
            s = v[1:-1].replace('""', '"')
            s = re.sub(r"\\u\{([0-9a-fA-F]+)\}", lambda mm: chr(int(mm.group(1), 16)), s)
            val = s
        elif sort == "Bool":
            val = v == "true"
        else:
            val = int(v.replace("(- ", "-").replace(")", ""))
        vals_.setdefault(base, val)
    args = {}
    for p, t in c.params.items():
        if t[0] == "opt":
            isnone = vals_.get(p + "_isnone", False)
            args[p] = None if isnone else vals_.get(p, "" if t[1] == ("str",) else 0 if t[1] == ("int",) else False)
        elif t in (("str",), ("node",)):
            args[p] = vals_.get(p, "")
        elif t == ("bool",):
            args[p] = vals_.get(p, False)
        else:
            args[p] = vals_.get(p, 0)
    return args


def _real_callable(c):
    sys.path.insert(0, __import__("pyvc.extract", fromlist=["REPO_SRC"]).REPO_SRC)
    mod = importlib.import_module(c.module)
    obj = mod
    for part in c.qualname.split("."):
        obj = getattr(obj, part)
    return obj


def _run_native(reg, c, args):
    fn = _real_callable(c)
    call_args = {k: v for k, v in args.items() if k not in ("self", "cls")}
    try:
        got = fn(**call_args)
        raised = None
    except Exception as e:  # noqa
        got, raised = None, type(e).__name__
    env = dict(args, result=got)
    problems = []
    if raised is not None:
        allowed = [cond for exc, cond in c.raises if exc == raised]
        if not allowed or not any(_eval_spec(reg, cond, args) for cond in allowed):
            problems.append(f"raised {raised}, which the contract does not allow for this input")
    else:
        for exc, cond in c.raises:
            if _eval_spec(reg, cond, args):
                problems.append(f"returned normally although the contract says it raises {exc}")
        if c.defn is not None:
            want = _eval_spec(reg, c.defn, args)
            if got != want:
                problems.append(f"returned {got!r}, contract says {want!r}")
        for e in c.ensures:
            if not _eval_spec(reg, e, env):
                problems.append(f"postcondition violated: {e[:120]}")
    return got, raised, problems


def try_native(pid, result, job, reg):
    """Replay the counter-model of a refuted obligation on the real function, when its parameters are primitive."""
    c = reg.contracts.get(result.get("fn") or "")
    if c is None or c.is_lemma or c.module is None or c.kind not in ("function", "classmethod", "staticmethod") or not result.get("model"):
        return None
    if any(t not in _PRIM for t in c.params.values()):
        return None
    try:
        args = _model_values(result["model"], c)
        got, raised, problems = _run_native(reg, c, args)
    except _Untranslatable as e:
        return dict(confirmed=False, reason=f"no-failing-input-found: contract not evaluable natively ({e})")
    return dict(confirmed=bool(problems), input=dict(contract=c.key, args=args), observed=dict(returned=repr(got), raised=raised), problems=problems,
                reason=None if problems else "no-failing-input-found: the real function satisfies its contract on the model's values (counterexample to the proof, not an input)")


def rerun(rep):
    """-> (ok, text): ok is True when the real code behaves as the property / contract requires on the recorded input."""
    if rep.get("kind") == "bounded":
        from native.registry import RERUN
        fn = RERUN.get(rep.get("check"))
        if fn is None:
            return False, f"no replayer registered for {rep.get('check')}"
        ok, text = fn(rep["input"])
        return ok, f"{rep.get('check')} / {rep.get('case')}\ninput: {rep['input']}\n{text}\n" + ("property holds on this input" if ok else "PROPERTY VIOLATED on this input")
    nat = rep.get("native") or {}
    if nat.get("input") and nat["input"].get("contract"):
        from pyvc import driver
        reg = driver.load_contracts()
        c = reg.contracts[nat["input"]["contract"]]
        got, raised, problems = _run_native(reg, c, nat["input"]["args"])
        text = f"{c.module}:{c.qualname}(**{nat['input']['args']!r}) -> returned {got!r}, raised {raised}\n" + ("\n".join(problems) if problems else "contract holds on this input")
        return (not problems), text
    return False, "no replayer"
