"""Native replayers: turn a recorded bounded case (or a counter-model) into a run of the real code."""
from __future__ import annotations


def try_native(pid, result, job, reg):
    return None


def rerun(rep):
    """-> (ok, text): ok is True when the real code behaves as the property requires on the recorded input."""
    if rep.get("kind") == "bounded":
        from native.registry import RERUN
        fn = RERUN.get(rep.get("check"))
        if fn is None:
            return False, f"no replayer registered for {rep.get('check')}"
        ok, text = fn(rep["input"])
        return ok, f"{rep.get('check')} / {rep.get('case')}\ninput: {rep['input']}\n{text}\n" + ("property holds on this input" if ok else "PROPERTY VIOLATED on this input")
    return False, "no replayer"
