"""Violation MESSAGE generator (C03, C05 messages): rule_assessment/error_message/message_generator.py, string view.

What is stated (C03): which buckets of the RuleViolations record produce which message records / text lines, and which names occur in which role.
A message is a record RVM(subject text, verb text, object text) (declared in c_strings.py); the final line is  subject + ' ' + verb + ' ' + object + '.'.
Lists are seen as the collection of their elements: the ORDER of records / lines (sorted(...), list.sort) is NOT modelled anywhere in this file;
`sep.join(xs)` over such a list is some text t with is_join(t, sep, S) -- "t is the sep-join of SOME arrangement of a list whose element set is S".
"""
import z3
from pyvc import vals
from pyvc.vals import V, vbool, vstr, fresh
from .speclib import REG, Contract, set_function

M_MG = "pytestarch.rule_assessment.error_message.message_generator"
RMG = "RuleViolationMessageGenerator"
BASE = "RuleViolationMessageBaseGenerator"
REG.class_bases.update({RMG: [BASE]})
S = z3.StringSort()

# ---------------------------------------------------------------- builtin model: sep.join(<bag of str>)  (opt-in per contract: opts=["join_rel"])
_f_is_join = z3.Function("is_join", S, S, z3.ArraySort(S, z3.BoolSort()), z3.BoolSort())


@REG.specfun("is_join")
def _is_join(eng, st, text, sep, coll):
    """text is the sep-join of some arrangement (order, multiplicities) of a list whose element set is coll: uninterpreted relation."""
    m = eng.reg.as_membership(eng, coll)
    return vbool(_f_is_join(text.x, sep.x, m.x))


def _join_bag(eng, st, sep, coll):
    """CPython facts used: ''.join([]) == '' for every separator; a join that contains a non-empty piece is non-empty."""
    m = eng.reg.as_membership(eng, coll)
    t = fresh(("str",), "joined")
    x = z3.Const(vals.fresh_name("e"), S)
    st.assume(_f_is_join(t.x, sep.x, m.x))
    st.assume(z3.Implies(z3.Not(z3.Exists([x], z3.Select(m.x, x))), t.x == z3.StringVal("")))
    st.assume(z3.Implies(z3.Exists([x], z3.And(z3.Select(m.x, x), x != z3.StringVal(""))), t.x != z3.StringVal("")))
    return t


REG.join_bag_fn = _join_bag

# ---------------------------------------------------------------- the verb prefix: DEFINED here (c_strings.py declared it uninterpreted and assumed _get_verb_prefix)
# wording as the messages are documented: 'X imports Y' / 'X does not import Y' / 'Sub modules of X do not import Y' / 'X is [not] imported by Y' / '... are [not] imported by Y'


def _verb_prefix(eng, st, import_rule, negated, singular):
    i, n, s_ = eng.truth(import_rule), eng.truth(negated), eng.truth(singular)
    sv = z3.StringVal
    return V(("str",), z3.If(i, z3.If(n, z3.If(s_, sv("does not "), sv("do not ")), sv("")),
                             z3.If(s_, z3.If(n, sv("is not "), sv("is ")), z3.If(n, sv("are not "), sv("are ")))))


REG.specfuns["verb_prefix"] = _verb_prefix
# _get_verb_prefix: registered in c_strings.py as an assumed table lookup; now VERIFIED against the definition above (the module-level table PREFIX_MAPPING is read from the source)
_c = REG.contracts["RuleViolationMessageGenerator._get_verb_prefix"]
_c.status, _c.view, _c.properties = "verify", "string", ["C03"]
_c.note = "PREFIX_MAPPING[(import_rule, negated, singular)]: the module-level defaultdict(str) table is evaluated from the source (engine: constant table), missing key -> ''"

# ---------------------------------------------------------------- vocabulary
# texts of one module in the role of rule object / rule subject of a 'does not import' line
REG.macro("rule_object_txt", ["o"], "('a sub module of ' if is_group(o) else '') + quoted(mid(o))")
REG.macro("subj_fmt", ["s"], "('Sub modules of ' if is_group(s) else '') + quoted(mid(s))")
REG.macro("neg_verb", ["g", "s"], "verb_prefix(g._import_rule, True, not is_group(s)) + g._base_verb")
REG.macro("viol_subj", ["B", "s"], "exists(Mod, lambda o: (s, o) in B)")
# the object texts subject s is missing in bucket B
set_function("noimp_objs", dict(B="Bag[Dep]", s="Mod"), "t", "Str", "exists(Mod, lambda o: ((s, o) in B) and t == rule_object_txt(o))")
ANY_MOD = "any module that is not "
# record m is THE 'X does not import A, B' line of subject s for bucket B (pre = '' or 'any module that is not ')
REG.define("noimp_match", dict(g=RMG, B="Bag[Dep]", s="Mod", pre="Str", m="RVM"),
           "rvm_subject(m) == subj_fmt(s) and rvm_verb(m) == neg_verb(g, s) and rvm_object(m).startswith(pre) "
           "and is_join(rvm_object(m)[len(pre):len(rvm_object(m))], ', ', noimp_objs(B, s))")
# record m is the 'X imports Y' / 'X is imported by Y' line of SOME pair of bucket B
REG.define("other_img", dict(g=RMG, B="Bag[Dep]", m="RVM"),
           "exists(Dep, lambda d: (d in B) and m == mk_rvm(quoted(mid(d[0])), imports_verb(g), quoted(mid(d[1]))))")
# soundness / completeness of a collection R of records w.r.t. a 'missing import' bucket
REG.define("noimp_sound", dict(g=RMG, B="Bag[Dep]", pre="Str", m="RVM"), "exists(Mod, lambda s: viol_subj(B, s) and noimp_match(g, B, s, pre, m))")
REG.define("noimp_complete", dict(g=RMG, B="Bag[Dep]", pre="Str", R="Bag[RVM]"),
           "forall(Mod, lambda s: implies(viol_subj(B, s), exists(RVM, lambda m: (m in R) and noimp_match(g, B, s, pre, m))))")
REG.define("other_complete", dict(g=RMG, B="Bag[Dep]", R="Bag[RVM]"),
           "forall(Dep, lambda d: implies(d in B, mk_rvm(quoted(mid(d[0])), imports_verb(g), quoted(mid(d[1]))) in R))")



def _mg(name, **kw):
    kw.setdefault("module", M_MG)
    kw.setdefault("kind", "method")
    kw.setdefault("view", "string")
    kw.setdefault("properties", ["C03"])
    return REG.add(Contract(name, **kw))



# ---------------------------------------------------------------- group 1: base class plumbing, dispatchers, composition into records / lines / text
_mg(f"{BASE}._extend", params=dict(self=RMG, messages="Bag[RVM]", new_messages="Opt[Bag[RVM]]"), returns="None", modifies=["messages"],
    ensures=["forall(RVM, lambda m: (m in messages) == ((m in old(messages)) or ((not is_none(new_messages)) and (m in unwrap(new_messages)))))"])
REG.macro("line", ["m"], "rvm_subject(m) + ' ' + rvm_verb(m) + ' ' + rvm_object(m) + '.'")
_NOIMP_BUCKETS = [("should_violations", False), ("should_only_violations_by_no_import", False), ("should_except_violations", True), ("should_only_except_violations_by_no_import", True)]
_OTHER_BUCKETS = ["should_only_violations_by_forbidden_import", "should_not_violations", "should_only_except_violations_by_forbidden_import", "should_not_except_violations"]


def _compose(cls, p, any_pre, req=None):
    """Contracts of the dispatchers and of the composition for the generator class `cls` (dynamic class of self). p: prefix of the predicate family
    ('' modules, 'l' layers); any_pre: the text in front of the object list of an 'other than' line; req(bucket): precondition on a missing-import bucket."""
    def mg(fn, owner, **kw):
        if cls == RMG:
            return _mg(f"{owner}.{fn}", **kw)
        return _mg(f"{cls}.{fn}", qualname=f"{owner}.{fn}", **kw)
    rv = dict(self=cls, rule_violations="RuleViolations")
    pre_of = lambda is_any: repr(any_pre) if is_any else "''"
    rq = lambda *bs: [req(b) for b in bs] if req else []
    REG.macro(p + "noimp_post", ["g", "B", "pre", "R"], f"forall(RVM, lambda m: implies(m in R, {p}noimp_sound(g, B, pre, m))) and {p}noimp_complete(g, B, pre, R)")
    opq = [p + o for o in ("noimp_match", "noimp_sound", "noimp_complete", "other_complete")]
    # the single-bucket dispatchers: the records of the dispatcher are exactly the records its bucket produces
    for fn, bucket, kind in (
            ("_create_should_import_violated_messages", "should_violations", "noimp"),
            ("_create_should_only_import_no_import_violated_messages", "should_only_violations_by_no_import", "noimp"),
            ("_create_should_only_import_forbidden_import_violated_messages", "should_only_violations_by_forbidden_import", "other"),
            ("_create_should_not_import_violated_messages", "should_not_violations", "other"),
            ("_create_should_import_except_violated_messages", "should_except_violations", "noimp_any"),
            ("_create_should_only_import_except_no_import_violated_messages", "should_only_except_violations_by_no_import", "noimp_any"),
            ("_create_should_only_import_except_forbidden_import_violated_messages", "should_only_except_violations_by_forbidden_import", "other"),
            ("_create_should_not_import_except_violated_messages", "should_not_except_violations", "other")):
        if kind == "other":
            mg(fn, RMG, params=rv, returns="Bag[RVM]", opaque=opq, ensures=[f"forall(RVM, lambda m: (m in result) == {p}other_img(self, rule_violations.{bucket}, m))"])
        else:
            mg(fn, RMG, params=rv, returns="Bag[RVM]", opaque=opq, requires=rq(bucket), ensures=[f"{p}noimp_post(self, rule_violations.{bucket}, {pre_of(kind == 'noimp_any')}, result)"])
    REG.macro(p + "all_sound", ["g", "rv", "m"],
              " or ".join([f"{p}noimp_sound(g, rv.{b}, {pre_of(a)}, m)" for b, a in _NOIMP_BUCKETS] + [f"{p}other_img(g, rv.{b}, m)" for b in _OTHER_BUCKETS]))
    REG.macro(p + "all_complete", ["g", "rv", "R"],
              " and ".join([f"{p}noimp_complete(g, rv.{b}, {pre_of(a)}, R)" for b, a in _NOIMP_BUCKETS] + [f"{p}other_complete(g, rv.{b}, R)" for b in _OTHER_BUCKETS]))
    REG.macro(p + "all_complete_l", ["g", "rv", "L"],
              " and ".join([f"{p}noimp_complete_l(g, rv.{b}, {pre_of(a)}, L)" for b, a in _NOIMP_BUCKETS] + [f"{p}other_complete_l(g, rv.{b}, L)" for b in _OTHER_BUCKETS]))
    REG.macro(p + "lines_post", ["g", "rv", "L"],
              f"forall(Str, lambda t: implies(t in L, exists(RVM, lambda m: {p}all_sound(g, rv, m) and t == line(m)))) and {p}all_complete_l(g, rv, L)")
    REG.macro(p + "text_post", ["g", "rv", "t"], f"exists(Bag[Str], lambda L: {p}lines_post(g, rv, L) and is_join(t, '\\n', L))")
    opq2 = [p + "noimp_match", p + "noimp_sound"]
    l2 = dict(messages="Bag[RVM]")
    # should_only = forbidden-import bucket + no-import bucket: every record comes from one of the two, each bucket is completely reported
    for fn, fb, nb, is_any in (("_create_should_only_import_violated_messages", "should_only_violations_by_forbidden_import", "should_only_violations_by_no_import", False),
                               ("_create_should_only_import_except_violated_messages", "should_only_except_violations_by_forbidden_import", "should_only_except_violations_by_no_import", True)):
        mg(fn, RMG, params=rv, returns="Bag[RVM]", locals=l2, opaque=opq2, requires=rq(nb),
           ensures=[f"forall(RVM, lambda m: implies(m in result, {p}other_img(self, rule_violations.{fb}, m) or {p}noimp_sound(self, rule_violations.{nb}, {pre_of(is_any)}, m)))",
                    f"{p}other_complete(self, rule_violations.{fb}, result)", f"{p}noimp_complete(self, rule_violations.{nb}, {pre_of(is_any)}, result)"])
    allreq = rq(*[b for b, _ in _NOIMP_BUCKETS])
    # all eight buckets: every record is the image of an entry of SOME bucket (in that bucket's role), every entry of EVERY bucket has its record
    mg("_create_violation_messages", BASE, params=rv, returns="Bag[RVM]", locals=l2, opaque=opq2, requires=allreq,
       ensures=[f"forall(RVM, lambda m: implies(m in result, {p}all_sound(self, rule_violations, m)))", f"{p}all_complete(self, rule_violations, result)"])
    # C03: every line is the rendering 'subject verb object.' of a record of some bucket; every bucket entry has its line; no line occurs twice (sorted(list(set)))
    mg("create_rule_violation_messages", BASE, params=rv, returns="Bag[Str]", returns_nodup=True, locals=dict(messages="Set[Str]"), opaque=opq2 + [p + "other_img"], requires=allreq,
       ensures=[f"forall(Str, lambda t: implies(t in result, exists(RVM, lambda m: {p}all_sound(self, rule_violations, m) and t == line(m))))"]
       + [f"{p}noimp_complete_l(self, rule_violations.{b}, {pre_of(a)}, result)" for b, a in _NOIMP_BUCKETS]
       + [f"{p}other_complete_l(self, rule_violations.{b}, result)" for b in _OTHER_BUCKETS],   # together: {p}lines_post(self, rule_violations, result)
       loops={0: dict(sig="for message in self._create_violation_messages(rule_violations)", invariant=[
           "forall(Str, lambda t: (t in messages) == exists(RVM, lambda m: (m in seen) and t == line(m)))"])})
    # the text of the AssertionError: a newline-join of (some arrangement of) exactly those lines
    mg("create_rule_violation_message", BASE, params=rv, returns="Str", opts=["join_rel"], requires=allreq,
       opaque=opq2 + [p + "other_img", p + "other_complete_l", p + "noimp_complete_l"], ensures=[f"{p}text_post(self, rule_violations, result)"])


REG.define("other_complete_l", dict(g=RMG, B="Bag[Dep]", L="Bag[Str]"),
           "forall(Dep, lambda d: implies(d in B, line(mk_rvm(quoted(mid(d[0])), imports_verb(g), quoted(mid(d[1])))) in L))")
REG.define("noimp_complete_l", dict(g=RMG, B="Bag[Dep]", pre="Str", L="Bag[Str]"),
           "forall(Mod, lambda s: implies(viol_subj(B, s), exists(RVM, lambda m: (line(m) in L) and noimp_match(g, B, s, pre, m))))")

# ---------------------------------------------------------------- group 2: the 'X does not import A, B' records (one per subject, all its missing objects)
_mg(f"{RMG}.__init__", params=dict(self=RMG, import_rule="Bool"), returns="None", modifies=["self"],
    ensures=["self._import_rule == import_rule", "self._base_verb == ('import' if import_rule else 'imported by')"])
_mg(f"{RMG}._is_singular_module", params=dict(self=RMG, module="Mod"), returns="Bool", defn="not is_group(module)")
_mg(f"{RMG}._get_rule_object", params=dict(self=RMG, rule_object="Mod"), returns="Str", defn="rule_object_txt(rule_object)")
_mg(f"{RMG}._get_rule_subject_formatted", params=dict(self=RMG, rule_subject="Mod"), returns="Str", defn="subj_fmt(rule_subject)")
_mg(f"{RMG}._convert_to_names", params=dict(self=RMG, violating_dependencies="Bag[Dep]"), returns="Bag[Tuple[Str,Str]]",
    ensures=["forall(Str, Str, lambda a, b: ((a, b) in result) == exists(Dep, lambda d: (d in violating_dependencies) and a == mid(d[0]) and b == mid(d[1])))"],
    note="not called anywhere in the library (dead code); contract from the code")
_ADD_T = ("exists(Str, lambda t: is_join(t, ', ', rule_objects) and implies(not nonempty(rule_objects), t == '') "
          "and implies(exists(Str, lambda x: (x in rule_objects) and x != ''), t != '') "
          "and forall(RVM, lambda m: (m in messages) == ((m in old(messages)) or ({cond} and m == mk_rvm(rule_subject, rule_verb, {pre} + t)))))")
_ADD_POST = _ADD_T
_ADD_ANY_POST = ("(nonempty(rule_objects) and " + _ADD_T + ") or ((not nonempty(rule_objects)) and forall(RVM, lambda m: (m in messages) == (m in old(messages))))")
_mg(f"{RMG}._add_combined_rule_objects", params=dict(self=RMG, messages="Bag[RVM]", rule_objects="Bag[Str]", rule_subject="Str", rule_verb="Str"),
    returns="None", modifies=["messages"], opts=["join_rel"],
    # one record (subject, verb, joined objects) is appended iff the joined text is not empty; nothing else changes
    ensures=[_ADD_POST.format(cond="t != ''", pre="''")])
_mg(f"{RMG}._add_combined_any_rule_objects",
    params=dict(self=RMG, messages="Bag[RVM]", rule_objects="Bag[Str]", rule_subject="Str", rule_verb="Str", rule_object_type="Str"),
    defaults=dict(rule_object_type="ANY_MODULE_THAT_IS_NOT"), returns="None", modifies=["messages"], opts=["join_rel"],
    ensures=[_ADD_ANY_POST.format(cond="True", pre="rule_object_type")])

_NOIMP_LOOPS = {
    0: dict(sig="for rule_subject in violating_rule_subjects", invariant=[
        "forall(RVM, lambda m: implies(m in messages, noimp_sound(self, rule_violations, {pre}, m)))",
        "forall(Mod, lambda s: implies(s in seen, exists(RVM, lambda m: (m in messages) and noimp_match(self, rule_violations, s, {pre}, m))))"]),
    1: dict(sig="for rule_object in rule_objects_for_rule_subject[rule_subject]", invariant=[
        "forall(Str, lambda t: (t in rule_objects) == exists(Mod, lambda o: (o in seen) and t == rule_object_txt(o)))"]),
}


def _fmt_loops(pre):
    return {k: dict(sig=v["sig"], invariant=[i.replace("{pre}", pre) for i in v["invariant"]]) for k, v in _NOIMP_LOOPS.items()}


_NOIMP_HINTS = ["exists(Mod, lambda o: ((rule_subject, o) in rule_violations) and (rule_object_txt(o) in rule_objects))",
                "forall(Mod, lambda o: rule_object_txt(o) != '')",
                "exists(Str, lambda x: (x in rule_objects) and x != '')",
                "same_elements(rule_objects, noimp_objs(rule_violations, rule_subject))"]
_NOIMP_LOCALS = dict(messages="Bag[RVM]", rule_objects="Bag[Str]", rule_objects_for_rule_subject="Dict[Mod,Bag[Mod]]", violating_rule_subjects="Set[Mod]")
_mg(f"{RMG}._create_no_import_between_original_subject_and_objects_message", params=dict(self=RMG, rule_violations="Bag[Dep]"), returns="Bag[RVM]",
    # C03: every record names ONE subject that misses a required import, its (negated) verb, and a ', '-join of exactly the objects it is missing;
    # every such subject has a record
    ensures=["noimp_post(self, rule_violations, '', result)"], locals=_NOIMP_LOCALS, loops=_fmt_loops("''"),
    ghost_at={"self._add_combined_rule_objects(": _NOIMP_HINTS})
_mg(f"{RMG}._create_no_import_other_than_between_original_subject_and_objects_message", params=dict(self=RMG, rule_violations="Bag[Dep]"), returns="Bag[RVM]",
    ensures=[f"noimp_post(self, rule_violations, {ANY_MOD!r}, result)"], locals=_NOIMP_LOCALS, loops=_fmt_loops(repr(ANY_MOD)),
    ghost_at={"self._add_combined_any_rule_objects(": _NOIMP_HINTS})


_compose(RMG, "", ANY_MOD)
# the six abstract dispatchers of the base class (bodies: pass); implemented by RuleViolationMessageGenerator (contracts above), inherited by the layer generator
for _fn in ("_create_should_import_violated_messages", "_create_should_only_import_violated_messages", "_create_should_not_import_violated_messages",
            "_create_should_import_except_violated_messages", "_create_should_only_import_except_violated_messages", "_create_should_not_import_except_violated_messages"):
    _mg(f"{BASE}.{_fn}", status="abstract", params=dict(self=RMG, rule_violations="RuleViolations"), returns="Bag[RVM]", impl_of=None,
        note=f"abstract method; implementation under contract: {RMG}.{_fn}")
_OPQ2 = ["noimp_match", "noimp_sound"]

# ---------------------------------------------------------------- group 4: the matcher side (rule_matcher.py): which generator renders the text raised by match
M_RM = "pytestarch.rule_assessment.rule_check.rule_matcher"
DRM = "DefaultRuleMatcher"
REG.macro("gen_of", ["rm"], "new(RuleViolationMessageGenerator, _import_rule=rm._updated_module_requirement._importer_specified_as_rule_subject, "
                            "_base_verb=('import' if rm._updated_module_requirement._importer_specified_as_rule_subject else 'imported by'))")
_mg("RuleMatcher._create_rule_violation_message_generator", module=M_RM, status="abstract", params=dict(self=DRM), returns=RMG,
    note="abstract method (body: pass); implemented by DefaultRuleMatcher / LayerRuleMatcher")
_mg("DefaultRuleMatcher._create_rule_violation_message_generator", module=M_RM, params=dict(self=DRM), returns=RMG,
    # the generator speaks in the direction of the (converted) requirement: 'import' iff the importer is the rule subject
    ensures=["result == gen_of(self)"])
_mg("RuleMatcher._create_rule_violation_message@str", qualname="RuleMatcher._create_rule_violation_message", module=M_RM,
    params=dict(self=DRM, rule_violations="RuleViolations"), returns="Str", opaque=_OPQ2 + ["other_img", "other_complete_l", "noimp_complete_l"],
    # the text handed to AssertionError by RuleMatcher.match is the generator's text for the matcher's direction
    ensures=["text_post(gen_of(self), rule_violations, result)"],
    note="string-view contract of the function whose default-view contract in c_rules.py (status assumed: total, returns a str) is used by RuleMatcher.match; "
         "this contract proves that assumption (no exception, Str) and states what the text is")

# ---------------------------------------------------------------- group 3: LayerRuleViolationMessageGenerator (messages of layer rules, C05)
# The layer lookup enters as the ONE uninterpreted function layer_of(mapping, name) of c_layers.py (LayerMapping.get_layer_for_module_name: bounded there, its
# meaning proved separately in c_layermap.py); the generator's record carries the mapping as an opaque value.
LRMG = "LayerRuleViolationMessageGenerator"
vals.declare_obj(LRMG, dict(_import_rule="Bool", _base_verb="Str", _layer_mapping="Opaque[LayerMapping]"))
REG.class_bases[LRMG] = [RMG]
ANY_LAYER = "any layer that is not "
REG.macro("lsuffix", ["L", "n"], "' (no layer)' if is_none(layer_of(L, n)) else (' (layer ' + quoted(unwrap(layer_of(L, n))) + ')')")
REG.macro("lname", ["L", "x"], "quoted(mid(x)) + lsuffix(L, mid(x))")
REG.macro("lay", ["L", "x"], "unwrap(layer_of(L, mid(x)))")
# every module of a missing-import pair belongs to a layer (the layer detector only reports pairs of modules listed in the rule's layers)
REG.macro("ltotal", ["L", "B"], "forall(Dep, lambda d: implies(d in B, (not is_none(layer_of(L, mid(d[0])))) and (not is_none(layer_of(L, mid(d[1]))))))")
REG.macro("lviol", ["L", "B", "l"], "exists(Dep, lambda d: (d in B) and l == lay(L, d[0]))")
set_function("lnoimp_objs", dict(L="Opaque[LayerMapping]", B="Bag[Dep]", l="Str"), "t", "Str",
             "exists(Dep, lambda d: (d in B) and l == lay(L, d[0]) and t == 'layer ' + quoted(lay(L, d[1])))")
REG.macro("lneg_verb", ["g"], "verb_prefix(g._import_rule, True, True) + g._base_verb")
REG.define("lnoimp_match", dict(g=LRMG, B="Bag[Dep]", l="Str", pre="Str", m="RVM"),
           "rvm_subject(m) == 'Layer ' + quoted(l) and rvm_verb(m) == lneg_verb(g) and rvm_object(m).startswith(pre) "
           "and is_join(rvm_object(m)[len(pre):len(rvm_object(m))], ', ', lnoimp_objs(g._layer_mapping, B, l))")
REG.define("lother_img", dict(g=LRMG, B="Bag[Dep]", m="RVM"),
           "exists(Dep, lambda d: (d in B) and m == mk_rvm(lname(g._layer_mapping, d[0]), imports_verb(g), lname(g._layer_mapping, d[1])))")
REG.define("lnoimp_sound", dict(g=LRMG, B="Bag[Dep]", pre="Str", m="RVM"), "exists(Str, lambda l: lviol(g._layer_mapping, B, l) and lnoimp_match(g, B, l, pre, m))")
REG.define("lnoimp_complete", dict(g=LRMG, B="Bag[Dep]", pre="Str", R="Bag[RVM]"),
           "forall(Str, lambda l: implies(lviol(g._layer_mapping, B, l), exists(RVM, lambda m: (m in R) and lnoimp_match(g, B, l, pre, m))))")
REG.define("lother_complete", dict(g=LRMG, B="Bag[Dep]", R="Bag[RVM]"),
           "forall(Dep, lambda d: implies(d in B, mk_rvm(lname(g._layer_mapping, d[0]), imports_verb(g), lname(g._layer_mapping, d[1])) in R))")
REG.define("lother_complete_l", dict(g=LRMG, B="Bag[Dep]", L="Bag[Str]"),
           "forall(Dep, lambda d: implies(d in B, line(mk_rvm(lname(g._layer_mapping, d[0]), imports_verb(g), lname(g._layer_mapping, d[1]))) in L))")
REG.define("lnoimp_complete_l", dict(g=LRMG, B="Bag[Dep]", pre="Str", L="Bag[Str]"),
           "forall(Str, lambda l: implies(lviol(g._layer_mapping, B, l), exists(RVM, lambda m: (line(m) in L) and lnoimp_match(g, B, l, pre, m))))")
_C05 = ["C03", "C05"]
_mg(f"{LRMG}.__init__", params=dict(self=LRMG, import_rule="Bool", layer_mapping="Opaque[LayerMapping]"), returns="None", modifies=["self"], properties=_C05,
    ensures=["self._import_rule == import_rule", "self._base_verb == ('import' if import_rule else 'imported by')", "self._layer_mapping == layer_mapping"])
_mg(f"{LRMG}._get_suffix", params=dict(self=LRMG, xbject="Str"), returns="Str", defn="lsuffix(self._layer_mapping, xbject)", properties=_C05)
_mg(f"{LRMG}._prepend_prefix", params=dict(self=LRMG, xbject="Str", capital="Bool"), defaults=dict(capital="True"), returns="Str",
    defn="('Layer ' if capital else 'layer ') + xbject", properties=_C05)
# inherited functions whose callee _get_suffix is overridden: re-verified for the layer generator
_mg(f"{LRMG}._get_rule_subject_and_object_of_dependency", qualname=f"{RMG}._get_rule_subject_and_object_of_dependency", params=dict(self=LRMG, dependency="Dep"),
    returns="Tuple[Str,Str]", properties=_C05,
    ensures=["result[0] == lname(self._layer_mapping, dependency[0])", "result[1] == lname(self._layer_mapping, dependency[1])"])
_mg(f"{LRMG}._create_other_violating_dependencies_message", qualname=f"{RMG}._create_other_violating_dependencies_message",
    params=dict(self=LRMG, violating_dependencies="Bag[Dep]"), returns="Bag[RVM]", properties=_C05,
    # 'module X (layer L) imports module Y (layer M)': exactly one record per violating pair, each name with the layer IT belongs to ('(no layer)' if none)
    ensures=["forall(RVM, lambda m: (m in result) == lother_img(self, violating_dependencies, m))"],
    locals=dict(messages="Bag[RVM]"),
    loops={0: dict(sig="for dependency in violating_dependencies", invariant=[
        "forall(RVM, lambda m: (m in messages) == exists(Dep, lambda d: (d in seen) and m == mk_rvm(lname(self._layer_mapping, d[0]), rule_verb, lname(self._layer_mapping, d[1]))))"])})
_mg(f"{LRMG}._get_violating_rule_subject_and_objects_layers", params=dict(self=LRMG, rule_violation_dependencies="Bag[Dep]"),
    returns="Tuple[Dict[Str,Set[Str]],Set[Str]]", properties=_C05, requires=["ltotal(self._layer_mapping, rule_violation_dependencies)"], opts=["cast_not_none"],
    # grouping per subject LAYER: the layers of the subjects, and per subject layer exactly the layers of the objects of its pairs
    ensures=["forall(Str, lambda l: (l in result[1]) == lviol(self._layer_mapping, rule_violation_dependencies, l))",
             "forall(Str, lambda l: (l in result[0]) == lviol(self._layer_mapping, rule_violation_dependencies, l))",
             "forall(Str, Str, lambda l, k: implies(l in result[0], (k in result[0][l]) == exists(Dep, lambda d: (d in rule_violation_dependencies) and l == lay(self._layer_mapping, d[0]) and k == lay(self._layer_mapping, d[1]))))"],
    locals=dict(violating_rule_subject_layers="Set[Str]", rule_object_layers_for_rule_subject_layer="DDict[Str,Set[Str]]"),
    loops={0: dict(sig="for (rule_subject, rule_object) in rule_violation_dependencies", invariant=[
        "forall(Str, lambda l: (l in violating_rule_subject_layers) == lviol(self._layer_mapping, seen, l))",
        "forall(Str, lambda l: (l in rule_object_layers_for_rule_subject_layer) == lviol(self._layer_mapping, seen, l))",
        "forall(Str, Str, lambda l, k: implies(l in rule_object_layers_for_rule_subject_layer, (k in rule_object_layers_for_rule_subject_layer[l]) == exists(Dep, lambda d: (d in seen) and l == lay(self._layer_mapping, d[0]) and k == lay(self._layer_mapping, d[1]))))"])})
_LNOIMP_LOCALS = dict(messages="Bag[RVM]", violating_rule_subject_layers="Set[Str]")
_LHINTS = ["exists(Dep, lambda d: (d in rule_violations) and rule_subject_layer == lay(self._layer_mapping, d[0]) and (('layer ' + quoted(lay(self._layer_mapping, d[1]))) in {objs}))",
           "forall(Str, lambda k: 'layer ' + quoted(k) != '')",
           "exists(Str, lambda x: (x in {objs}) and x != '')", "same_elements({objs}, lnoimp_objs(self._layer_mapping, rule_violations, rule_subject_layer))"]


def _lloops(pre, dname, objs):
    return {0: dict(sig="for rule_subject_layer in violating_rule_subject_layers", invariant=[
                f"forall(RVM, lambda m: implies(m in messages, lnoimp_sound(self, rule_violations, {pre}, m)))",
                f"forall(Str, lambda l: implies(l in seen, exists(RVM, lambda m: (m in messages) and lnoimp_match(self, rule_violations, l, {pre}, m))))"]),
            1: dict(sig=f"for rule_object_layer in sorted({dname}[rule_subject_layer])", invariant=[
                f"forall(Str, lambda t: (t in {objs}) == exists(Str, lambda k: (k in seen) and t == 'layer ' + quoted(k)))"])}


_mg(f"{LRMG}._create_no_import_between_original_subject_and_objects_message", params=dict(self=LRMG, rule_violations="Bag[Dep]"), returns="Bag[RVM]", properties=_C05,
    requires=["ltotal(self._layer_mapping, rule_violations)"],
    # 'Layer "L" does not import layer "M", layer "N"': one record per subject LAYER with a missing pair, listing exactly the layers of the objects of its pairs
    ensures=["lnoimp_post(self, rule_violations, '', result)"],
    locals=dict(_LNOIMP_LOCALS, rule_object_layers="Bag[Str]", rule_object_layers_for_rule_subject_layer="Dict[Str,Set[Str]]"),
    loops=_lloops("''", "rule_object_layers_for_rule_subject_layer", "rule_object_layers"),
    ghost_at={"self._add_combined_rule_objects(": [h.format(objs="rule_object_layers") for h in _LHINTS]})
_mg(f"{LRMG}._create_no_import_other_than_between_original_subject_and_objects_message", params=dict(self=LRMG, rule_violations="Bag[Dep]"), returns="Bag[RVM]", properties=_C05,
    requires=["ltotal(self._layer_mapping, rule_violations)"], ensures=[f"lnoimp_post(self, rule_violations, {ANY_LAYER!r}, result)"],
    locals=dict(_LNOIMP_LOCALS, rule_objects="Bag[Str]", rule_object_layers_for_rule_subject="Dict[Str,Set[Str]]"),
    loops=_lloops(repr(ANY_LAYER), "rule_object_layers_for_rule_subject", "rule_objects"),
    ghost_at={"self._add_combined_any_rule_objects(": [h.format(objs="rule_objects") for h in _LHINTS]})
_compose(LRMG, "l", ANY_LAYER, req=lambda b: f"ltotal(self._layer_mapping, rule_violations.{b})")
for _k, _c in list(REG.contracts.items()):
    if _k.startswith(LRMG + ".") and _c.properties == ["C03"]:
        _c.properties = list(_C05)

# ---------------------------------------------------------------- C03: a bucket contributes records iff it is non-empty (lemmas over the composition contracts)
REG.lemma("C03_forbidden_bucket_reported_iff_nonempty", params=dict(g=RMG, B="Bag[Dep]", R="Bag[RVM]"), requires=["other_complete(g, B, R)"],
          ensures=["exists(RVM, lambda m: (m in R) and other_img(g, B, m)) == nonempty(B)"], view="string", properties=["C03"],
          note="R: any record collection that completely reports bucket B (e.g. the result of _create_violation_messages)")
REG.lemma("C03_missing_bucket_reported_iff_nonempty", params=dict(g=RMG, B="Bag[Dep]", pre="Str", R="Bag[RVM]"), requires=["noimp_complete(g, B, pre, R)"],
          ensures=["exists(RVM, lambda m: (m in R) and noimp_sound(g, B, pre, m)) == nonempty(B)"], opaque=["noimp_match"], view="string", properties=["C03"])
REG.lemma("C03_records_iff_some_bucket_nonempty", params=dict(g=RMG, rv="RuleViolations", R="Bag[RVM]"),
          requires=["forall(RVM, lambda m: implies(m in R, all_sound(g, rv, m)))", "all_complete(g, rv, R)"],
          ensures=["nonempty(R) == (" + " or ".join(f"nonempty(rv.{b})" for b in [b for b, _ in _NOIMP_BUCKETS] + _OTHER_BUCKETS) + ")"],
          use=[f"C03_missing_bucket_reported_iff_nonempty(g, rv.{b}, {repr(ANY_MOD if a else '')}, R)" for b, a in _NOIMP_BUCKETS]
          + [f"C03_forbidden_bucket_reported_iff_nonempty(g, rv.{b}, R)" for b in _OTHER_BUCKETS],
          opaque=["noimp_match", "noimp_sound", "noimp_complete", "other_img", "other_complete"], view="string", properties=["C03"],
          note="with the postcondition of _create_violation_messages: the record list is empty iff all eight buckets are empty")
